"""Squeeth world: the real SqueethMarket together with its WETH/oSQTH Uniswap v3 pool market.

market world dict (kind "squeeth"):
  {"kind": "squeeth", "name": "sq", "pool": "<name of an already listed uni market>" | {embedded uni market dict},
   "norm_factor": [n decimal strings], "WETH": [n] (ETH price in USD), "OSQTH": [n] (oSQTH price in ETH)}

The frame has exactly the format load_squeeth_data produces: DatetimeIndex, three object-dtype columns of Decimal,
forward-filled.  The pool is UniV3Pool(weth, osqth, 0.3, weth) built by the uni builder (real fillna /
_add_statistic_column).  The account quote must be USD (or a stable coin); the price frame needs WETH and OSQTH (USD)
columns: OSQTH_usd = OSQTH_eth * WETH (helper ``squeeth_price_columns``).

Operations put what they resolved into ``sim.sq_call`` so that an oracle can see the concrete request
(kind, vault key, amounts, position) next to the outcome.
"""
import math
from decimal import Decimal, localcontext

import pandas as pd

from ..sim import market_builder, op, amount, HarnessError, AMOUNT_RESOLVERS, MARKET_BUILDERS
from ..canon import D
from . import uni as U

from demeter import MarketInfo
from demeter.broker import MarketTypeEnum
from demeter.squeeth import SqueethMarket, VaultKey
from demeter.uniswap import PositionInfo

POOL_FEE = 0.3
POOL_SPACING = 60
UNKNOWN_VAULT = 9999


# ------------------------------------------------------------------------------------------------- builder
def squeeth_frame(mw, index) -> pd.DataFrame:
    cols = {}
    for c in ("norm_factor", "WETH", "OSQTH"):
        v = mw[c]
        if len(v) != len(index):
            raise HarnessError(f"squeeth series {c} has {len(v)} rows, world has {len(index)}")
        cols[c] = pd.Series([None if x is None else D(x) for x in v], index=index, dtype="object")
    df = pd.DataFrame(cols, index=index)
    df.index.name = "block_timestamp"
    df = df.ffill()  # what load_squeeth_data does after reading
    return df


@market_builder("squeeth")
def build_squeeth(sim, mw):
    pool_ref = mw["pool"]
    if isinstance(pool_ref, dict):  # embedded pool: build and register it first (broker order: pool, then squeeth)
        pmw = pool_ref
        if pmw["name"] not in sim.markets:
            pool_market = MARKET_BUILDERS["uni"](sim, pmw)
            sim.markets[pmw["name"]] = pool_market
            sim.broker.add_market(pool_market)
        pool_market = sim.markets[pmw["name"]]
    else:
        pool_market = sim.markets.get(pool_ref)
        if pool_market is None:
            raise HarnessError(f"squeeth market {mw['name']}: pool market {pool_ref} must be listed before it")
        pmw = sim.mdata[pool_ref]["mw"]
    if (pmw["token0"].upper(), pmw["token1"].upper(), pmw["quote"].upper()) != ("WETH", "OSQTH", "WETH"):
        raise HarnessError("squeeth pool must be UniV3Pool(WETH, OSQTH, 0.3, WETH)")
    key = MarketInfo(mw["name"], MarketTypeEnum.squeeth)
    market = SqueethMarket(key, pool_market)
    market.data = squeeth_frame(mw, sim.index)
    sim.mdata[mw["name"]] = {"mw": mw, "pool_mw": pmw, "pool_name": pmw["name"]}
    return market


def split_markets(mw):
    """[pool market dict, squeeth market dict] with the pool referenced by name (tidier scenarios)."""
    if isinstance(mw["pool"], dict):
        pool = mw["pool"]
        sq = dict(mw)
        sq["pool"] = pool["name"]
        return [pool, sq]
    return [mw]


def squeeth_price_columns(mw):
    """USD price columns for the account price frame, as squeeth.helper.get_price_from_data derives them."""
    weth = [D(x) for x in mw["WETH"]]
    with localcontext() as ctx:
        ctx.prec = 40
        osq = [D(o) * w for o, w in zip(mw["OSQTH"], weth)]
    return {"WETH": [str(x) for x in weth], "OSQTH": [_s(x) for x in osq]}


# ------------------------------------------------------------------------------------------------- arg helpers
def vault_of(market, spec):
    """None -> new vault; {"i": k} -> k-th existing vault (by id); {"id": n} literal; no vault at all -> unknown key."""
    if spec is None:
        return None
    if "id" in spec:
        return VaultKey(int(spec["id"]))
    keys = sorted(market.vault.keys(), key=lambda k: k.id)
    if not keys:
        return VaultKey(UNKNOWN_VAULT)
    return keys[int(spec["i"]) % len(keys)]


def lp_of(market, spec):
    """None -> None; {"vault": k} -> the position deposited in the k-th vault (or a free one if it has none);
    {"i": k} -> k-th position of the pool that is not lent out (falls back to any); {"lo","hi"} literal."""
    if spec is None:
        return None
    pool = market.squeeth_uni_pool
    if "lo" in spec:
        return PositionInfo(int(spec["lo"]), int(spec["hi"]))
    if "vault" in spec:
        vk = vault_of(market, {"i": spec["vault"]})
        if vk in market.vault and market.vault[vk].uni_nft_id is not None:
            return market.vault[vk].uni_nft_id
    keys = sorted(pool.positions.keys())
    free = [k for k in keys if not pool.positions[k].transferred]
    pick = free if (free and not spec.get("any")) else keys
    if not pick:
        return PositionInfo(int(spec.get("lo0", 0)), int(spec.get("hi0", 60)))
    return pick[int(spec.get("i", 0)) % len(pick)]


def _vault_field(field):
    def res(sim, what, spec):
        mname, _, idx = what.partition("#")
        m = sim.markets[mname]
        keys = sorted(m.vault.keys(), key=lambda k: k.id)
        if not keys:
            return Decimal(0)
        return Decimal(getattr(m.vault[keys[int(idx or 0) % len(keys)]], field))

    return res


AMOUNT_RESOLVERS["sqcoll"] = _vault_field("collateral_amount")
AMOUNT_RESOLVERS["sqshort"] = _vault_field("osqth_short_amount")

# A property module may install a function (sim, market, kind, vault_key, spec, ctx) -> Decimal here to resolve
# "frontier" amounts with its own reference model (harness code, never the code under test).
FRONTIER_RESOLVER = [None]


def _amt(sim, m, kind, vk, spec, ctx=None):
    if isinstance(spec, dict) and ("frontier" in spec or "floor" in spec):
        if FRONTIER_RESOLVER[0] is None:
            raise HarnessError("frontier amount used without a resolver")
        return FRONTIER_RESOLVER[0](sim, m, kind, vk, spec, ctx or {})
    return amount(sim, spec)


def _res(t):
    return list(t) if isinstance(t, tuple) else t


# ------------------------------------------------------------------------------------------------- operations
@op("sq.open_deposit_mint")
def _open_deposit_mint(sim, m, a):
    vk = vault_of(m, a.get("vault"))
    pos = lp_of(m, a.get("pos"))
    dep = amount(sim, a.get("deposit"), Decimal(0))
    mint = _amt(sim, m, "mint", vk, a.get("mint"), {"deposit": dep, "pos": pos})
    if mint is None:
        mint = Decimal(0)
    sim.sq_call = {"kind": "open_deposit_mint", "vk": vk, "deposit": dep, "mint": mint, "pos": pos}
    return lambda: _res(m.open_deposit_mint(dep, mint, vk, pos))


@op("sq.open_deposit_mint_by_collat_rate")
def _open_by_rate(sim, m, a):
    vk = vault_of(m, a.get("vault"))
    pos = lp_of(m, a.get("pos"))
    dep = amount(sim, a.get("deposit"), Decimal(0))
    rate = D(a.get("rate", "2"))
    sim.sq_call = {"kind": "open_deposit_mint_by_collat_rate", "vk": vk, "deposit": dep, "rate": rate, "pos": pos}
    return lambda: _res(m.open_deposit_mint_by_collat_rate(dep, rate, vk, pos))


@op("sq.deposit")
def _deposit(sim, m, a):
    vk = vault_of(m, a.get("vault", {"i": 0}))
    amt = amount(sim, a.get("amount"))
    sim.sq_call = {"kind": "deposit", "vk": vk, "deposit": amt}
    return lambda: m.deposit(vk, amt)


@op("sq.deposit_uni_position")
def _deposit_lp(sim, m, a):
    vk = vault_of(m, a.get("vault", {"i": 0}))
    pos = lp_of(m, a.get("pos", {"i": 0}))
    sim.sq_call = {"kind": "deposit_uni_position", "vk": vk, "pos": pos}
    return lambda: m.deposit_uni_position(vk, pos)


@op("sq.withdraw_uni_position")
def _withdraw_lp(sim, m, a):
    vk = vault_of(m, a.get("vault", {"i": 0}))
    pos = lp_of(m, a.get("pos", {"vault": 0}))
    sim.sq_call = {"kind": "withdraw_uni_position", "vk": vk, "pos": pos}
    return lambda: m.withdraw_uni_position(vk, pos)


@op("sq.burn_and_withdraw")
def _burn_withdraw(sim, m, a):
    vk = vault_of(m, a.get("vault", {"i": 0}))
    burn = amount(sim, a.get("burn"), Decimal(0))
    wd = _amt(sim, m, "withdraw", vk, a.get("withdraw"), {"burn": burn})
    if wd is None:
        wd = Decimal(0)
    sim.sq_call = {"kind": "burn_and_withdraw", "vk": vk, "burn": burn, "withdraw": wd}
    return lambda: m.burn_and_withdraw(vk, burn, wd)


@op("sq.liquidate")
def _liquidate(sim, m, a):
    vk = vault_of(m, a.get("vault", {"i": 0}))
    sim.sq_call = {"kind": "liquidate", "vk": vk}
    return lambda: m.liquidate(vk)


@op("sq.buy_squeeth")
def _buy(sim, m, a):
    osq = amount(sim, a.get("osqth"))
    eth = amount(sim, a.get("eth"))
    sim.sq_call = {"kind": "buy_squeeth", "osqth": osq, "eth": eth}
    return lambda: _res(m.buy_squeeth(osq, eth))


@op("sq.sell_squeeth")
def _sell(sim, m, a):
    osq = amount(sim, a.get("osqth"))
    eth = amount(sim, a.get("eth"))
    sim.sq_call = {"kind": "sell_squeeth", "osqth": osq, "eth": eth}
    return lambda: _res(m.sell_squeeth(osq, eth))


@op("sq.read_collat_ratio")
def _read_ratio(sim, m, a):
    vk = vault_of(m, a.get("vault", {"i": 0}))
    sim.sq_call = {"kind": "read_collat_ratio", "vk": vk}
    return lambda: _res(m.get_collat_ratio_and_liq_price(vk))


@op("sq.read_vault_status")
def _read_status(sim, m, a):
    vk = vault_of(m, a.get("vault", {"i": 0}))
    sim.sq_call = {"kind": "read_vault_status", "vk": vk}
    return lambda: _res(m.get_vault_status(vk, m.get_norm_factor()))


@op("sq.read_twap")
def _read_twap(sim, m, a):
    tok = sim.token(a.get("token", "WETH"))
    back = min(int(a.get("back", 0)), max(sim.bar, 0))
    sim.sq_call = {"kind": "read_twap", "token": tok.name, "back": back}
    if back > 0 and sim.snapshot is not None:
        # the optional end time: the TWAP as of an earlier bar (a 'now against N bars ago' signal)
        iv = sim.world.get("interval", "1min")
        now = (pd.Timestamp(sim.snapshot.timestamp) - back * pd.Timedelta(iv if iv[0].isdigit() else "1" + iv)).to_pydatetime()
        return lambda: m.get_twap_price(tok, now)
    sim.sq_call["back"] = 0
    return lambda: m.get_twap_price(tok)


@op("sq.read_balance")
def _read_balance(sim, m, a):
    sim.sq_call = {"kind": "read_balance"}
    return lambda: m.get_market_balance()


# ------------------------------------------------------------------------------------------------- generation
def _s(x: Decimal, places=18) -> str:
    q = x.quantize(Decimal(1).scaleb(-places)) if x.as_tuple().exponent < -places else x
    return format(q, "f")


def tick_of_osqth_price(p_eth: float) -> int:
    """pool = (token0 WETH quote, token1 oSQTH), both 18 decimals: price(oSQTH in ETH) = 1.0001^-tick."""
    return int(round(-math.log(p_eth) / math.log(1.0001)))


def osqth_price_of_tick(tick: int) -> Decimal:
    with localcontext() as ctx:
        ctx.prec = 40
        return Decimal(1) / (Decimal("1.0001") ** int(tick))


def gen_eth_path(rng, n, p0=None, vol=None):
    p = p0 if p0 is not None else math.exp(rng.uniform(math.log(700), math.log(4500)))
    vol = vol if vol is not None else rng.choice([0.0, 0.0002, 0.001, 0.003, 0.008])
    out = []
    for _ in range(n):
        out.append(p)
        p *= math.exp(rng.gauss(0, vol)) if vol else 1.0
    return out


def gen_squeeth_market(rng, name, n, prices, pool_name=None, nf0=None, nf_jumps=(), premium0=None, premium_vol=None,
                       premium_jumps=(), osqth_spikes=(), heavy_fees=False, embed_pool=True):
    """Squeeth market world consistent with ``prices["WETH"]`` (ETH price in USD, n floats/Decimals; generated when
    absent).  oSQTH mark price = norm_factor * ETH / 1e4 * (1 + premium); the pool's close ticks are derived from it,
    and the OSQTH column equals the pool's price column (previous close; first bar: first close), so the two markets
    agree on the oSQTH price.  nf_jumps / premium_jumps: [(bar, factor)] step changes from that bar on;
    osqth_spikes: [(bar, factor)] one-row changes of the pool close feeding row bar+1.  Returns the squeeth market dict
    with the pool market embedded under "pool" (see split_markets)."""
    eth = [float(x) for x in prices["WETH"]] if prices and "WETH" in prices else gen_eth_path(rng, n)
    if len(eth) != n:
        raise HarnessError("WETH price path length != n")
    nf = nf0 if nf0 is not None else rng.uniform(0.15, 0.95)
    decay = rng.choice([0.0, 1e-7, 1e-6, 2e-5])
    prem = premium0 if premium0 is not None else rng.uniform(-0.02, 0.08)
    pvol = premium_vol if premium_vol is not None else rng.choice([0.0, 0.0005, 0.003])
    nfj, pj, sp = dict(nf_jumps), dict(premium_jumps), dict(osqth_spikes)
    nfs, ticks = [], []
    pfac = 1.0
    for i in range(n):
        if i in nfj:
            nf *= nfj[i]
        nfs.append(nf)
        nf *= 1 - decay
        # close of minute i = mark at the start of minute i+1
        j = min(i + 1, n - 1)
        if j in pj:
            pfac *= pj[j]
            pj.pop(j)
        prem += rng.gauss(0, pvol) if pvol else 0.0
        mark = nfs[-1] * eth[j] / 1e4 * (1 + prem) * pfac * sp.get(i, 1.0)
        ticks.append(tick_of_osqth_price(max(mark, 1e-12)))
    osq = [osqth_price_of_tick(ticks[max(i - 1, 0)]) for i in range(n)]
    liq_mag = rng.choice([17, 18, 19]) if heavy_fees else rng.choice([20, 21, 22, 23])
    vmax = 5000 if heavy_fees else 50
    liqs, in0, in1 = [], [], []
    for i in range(n):
        liqs.append(str(int(rng.uniform(0.5, 5) * 10**liq_mag)))
        in0.append(str(0 if rng.random() < 0.1 else int(rng.uniform(0, vmax) * 10**18)))
        in1.append(str(0 if rng.random() < 0.1 else int(rng.uniform(0, vmax * 10) * 10**18)))
    pool = {
        "kind": "uni", "name": pool_name or (name + "_pool"), "token0": "WETH", "token1": "OSQTH", "quote": "WETH",
        "fee": POOL_FEE, "closeTick": ticks, "inAmount0": in0, "inAmount1": in1, "currentLiquidity": liqs,
    }
    mw = {
        "kind": "squeeth", "name": name, "pool": pool if embed_pool else pool["name"],
        "norm_factor": [_s(Decimal(repr(x))) for x in nfs],
        "WETH": [_s(Decimal(repr(x)), 12) for x in eth],
        "OSQTH": [_s(x, 30) for x in osq],
    }
    if not embed_pool:
        mw["_pool_market"] = pool
    return mw
