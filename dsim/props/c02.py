"""C02 - no look-ahead: bars 0..k depend only on data of bars 0..k; supplied frames stay intact; re-runs reproduce.

Twin histories: scenario S runs on history H (twice, on the *same* frame objects) and on H'_k = H[0..k] ++ a different
future (frozen tail, truncated history, or an independent random continuation). The event log (operation results,
snapshots handed to the strategy, notifications), the account-status rows and the actions of bars 0..k must be
identical; SHA-256 of every supplied frame must be unchanged by a run.
"""
import copy

import pandas as pd

from ..sim import Sim, Oracle
from ..multi import Combined
from ..canon import canon, digest
from ..shrink import truncate_world
from ..worlds import uni as U
from .. import rng as R
from .c05 import gen_prices, grid_labels, ORDER

ID = "C02"


# --------------------------------------------------------------------------------------------------- generation
def gen_base(seed, tier):
    rw, rp = R.sub(seed, "world"), R.sub(seed, "program")
    interval = rw.choice(["1min"] * 4 + ["2min", "5min", "15min"])
    k = int(pd.Timedelta(interval) / pd.Timedelta("1min"))
    nbars = rw.choice([3, 4, 6, 9, 14, 22] if tier == "quick" else [3, 4, 6, 9, 14, 22, 40, 90])
    off = rw.choice([0, 0, 1, k - 1]) if k > 1 else rw.choice([0, 13])
    n = max(2, nbars * k - (off % k))
    start = pd.Timestamp("2023-08-13 00:00:00") + pd.Timedelta(minutes=off + 60 * rw.randint(0, 30))
    pools = [(("USDC", 6), ("WETH", 18), "USDC"), (("WBTC", 8), ("USDC", 6), "USDC"), (("DAI", 18), ("WETH", 18), "WETH")]
    rw.shuffle(pools)
    nm = rw.choice([1, 1, 2])
    markets, tokens = [], {}
    for j in range(nm):
        t0, t1, q = pools[j]
        mw = U.gen_uni_market(rw, f"uni{j}", n, t0, t1, q)
        mw["currentLiquidity"] = [x if int(x) > 0 else "1000000000000" for x in mw["currentLiquidity"]]
        # holes in the raw data exercise the real fillna/ffill path (first row kept: the loader back-fills a leading hole by design)
        for i in range(1, n):
            if rw.random() < 0.08:
                mw["closeTick"][i] = None
        markets.append(mw)
        tokens[t0[0]] = t0[1]
        tokens[t1[0]] = t1[1]
    explicit = rw.random() < 0.6 or nm > 1
    world = {
        "start": str(start), "n": n, "interval": interval, "tokens": tokens, "assets": {t: "100000" for t in tokens},
        "quote": "USD", "prices": gen_prices(rw, sorted(tokens), n) if explicit else None, "markets": markets,
    }
    labels = grid_labels(start, n, k)
    nb = len(labels)
    program = []
    for _ in range(rp.choice([1, 3, 6, 12, 20])):
        mw = rp.choice(markets)
        bar = rp.randint(-1, nb - 1)
        phase = "initialize" if bar == -1 else rp.choice(["before_bar", "trigger", "on_bar", "on_bar", "after_bar"])
        i = min(n - 1, max(0, bar) * k)
        ct = next((t for t in reversed(mw["closeTick"][: i + 1]) if t is not None), mw["closeTick"][0])
        o = U.random_uni_op(rp, mw, ct, hostile=0.1)
        o.update({"bar": bar, "phase": phase})
        program.append(o)
    program.sort(key=lambda o: (o["bar"], ORDER.index(o["phase"])))
    return {"property": ID, "seed": seed, "world": world, "program": program, "faults": []}, k, nb, labels, start


def generate(seed: int, tier: str = "quick") -> dict:
    sc, k, nb, labels, start = gen_base(seed, tier)
    rf = R.sub(seed, "faults")
    n = sc["world"]["n"]
    # divergence points: (bar k after which the future differs, raw minute j where it starts, kind)
    cands = sorted(set([0, max(0, nb - 2)] + [rf.randint(0, max(0, nb - 2)) for _ in range(2)]))
    twins = []
    for kb in cands:
        if kb + 1 >= nb:
            continue
        j0 = next(i for i in range(n) if _label(start, i, k) == labels[kb + 1])
        j = j0 + (rf.randint(0, k - 1) if k > 1 and rf.random() < 0.4 else 0)
        j = min(j, n - 1)
        kind = rf.choice(["freeze", "truncate", "random", "random"])
        twins.append({"k": kb, "j": j, "kind": kind, "seed": rf.randint(0, 2**31), "mid_bin": j != j0})
        sc["faults"].append({"kind": "future_divergence:" + kind, "bar": kb})
    sc["twins"] = twins
    return sc


def _label(start, i, k):
    ts = start + pd.Timedelta(minutes=i)
    m = ts.hour * 60 + ts.minute
    return ts.normalize() + pd.Timedelta(minutes=(m // k) * k)


def make_twin(scenario, tw):
    """H' = H[0..j) ++ a different future"""
    n = int(scenario["world"]["n"])
    j = tw["j"]
    if tw["kind"] == "truncate":
        sc = truncate_world(scenario, j)
        if sc is None:
            return None
        sc["program"] = list(sc["program"])
        return sc
    sc = copy.deepcopy(scenario)
    rr = R.sub(tw["seed"], "future")

    def walk(o):
        if isinstance(o, dict):
            vals = {k2: walk(o[k2]) for k2 in sorted(o)}  # sorted: the PRNG draw order must not depend on key order
            return {k2: vals[k2] for k2 in o}
        if isinstance(o, list):
            if len(o) == n and not (o and isinstance(o[0], dict)):
                head = o[:j]
                last = next((x for x in reversed(head) if x is not None), o[0])
                if tw["kind"] == "freeze":
                    return head + [last] * (n - j)
                return head + [_perturb(rr, last, x) for x in o[j:]]
            return [walk(x) for x in o]
        return o

    sc["world"] = walk(sc["world"])
    return sc


def _perturb(rr, last, x):
    """an independent continuation value of the same type as x"""
    if x is None:
        return None if rr.random() < 0.5 else last
    if isinstance(x, int):
        return int(last if last is not None else x) + rr.randint(-400, 400)
    if isinstance(x, str):
        from decimal import Decimal

        d = Decimal(x)
        if d == d.to_integral_value() and "." not in x:
            return str(int(d * rr.randint(0, 5)) + rr.randint(0, 1000))
        return format(d * Decimal(repr(round(rr.uniform(0.5, 1.8), 6))), "f")
    if isinstance(x, float):
        return x * rr.uniform(0.5, 1.8)
    return x


# --------------------------------------------------------------------------------------------------- oracle
class SnapshotLogger(Oracle):
    """puts a deep digest of every snapshot handed to the strategy into the event log (at hand-over time)"""

    def phase(self, sim, bar, phase, pos):
        if pos == "begin" and phase in ("before_bar", "on_bar", "after_bar") and sim.snapshot is not None:
            s = sim.snapshot
            # Snapshot.market_status is a class-level dict shared by every snapshot in the process: digest only this
            # run's markets, otherwise the log would depend on which scenarios the worker process ran before
            mine = {name: s.market_status[m.market_info] for name, m in sim.markets.items()}
            sim.event("snapshot", phase, digest([s.timestamp, s.row_id, s.prices, mine]))


def frame_hash(df):
    return digest([canon(df), [str(t) for t in df.dtypes], str(df.index.dtype), [str(c) for c in df.columns]])


def _prefix(events, k):
    out = []
    for e in events:
        if e[1] == "phase" and e[2] == "before_bar" and e[3] == k + 1:
            break
        if e[1] == "phase" and e[2] == "finalize":
            continue
        out.append(e)
    return out


def execute(scenario):
    base = {kk: v for kk, v in scenario.items() if kk != "twins"}
    h0 = {}
    s1 = Sim(base, SnapshotLogger(), on_feed=lambda name, df: h0.__setitem__(name, frame_hash(df)))  # hashed before hand-over
    frames = dict(s1.fed)
    s1.run()
    h1 = {name: frame_hash(df) for name, df in frames.items()}
    s2 = Sim(base, SnapshotLogger(), prebuilt=frames)  # fresh account, the very same frame objects
    s2.run()
    h2 = {name: frame_hash(df) for name, df in frames.items()}
    res = Combined([s1, s2])
    for name in h0:
        if h0[name] != h1[name] or h0[name] != h2[name]:
            res.violate("c02.input_mutated", name, after_run=1 if h0[name] != h1[name] else 2)
    if s1.events != s2.events:
        i = next((i for i, (a, b) in enumerate(zip(s1.events, s2.events)) if a != b), min(len(s1.events), len(s2.events)))
        res.violate("c02.rerun_differs", _ev_site(s1.events, s2.events, i), first_diff=i, a=_get(s1.events, i), b=_get(s2.events, i))
    if canon(s1.actuator.account_status) != canon(s2.actuator.account_status):
        res.violate("c02.rerun_differs", "account_status")
    k_iv = int(pd.Timedelta(scenario["world"]["interval"]) / pd.Timedelta("1min"))
    res.count("probe:resampled" if k_iv > 1 else "probe:minute")
    for tw in scenario.get("twins", []):
        sc2 = make_twin(base, tw)
        if sc2 is None:
            continue
        s3 = Sim(sc2, SnapshotLogger())
        s3.run()
        res.op_results += s3.op_results
        res.events.append(["twin", tw["k"], tw["kind"], s3.events])
        k = tw["k"]
        pa, pb = _prefix(s1.events, k), _prefix(s3.events, k)
        res.count("fault:future_divergence:" + tw["kind"])
        if tw.get("mid_bin"):
            res.count("probe:divergence_inside_a_resample_bin")
        if any(e[1] == "op" and e[5] == "ok" for e in pa):
            res.count("probe:accepted_op_in_prefix")
        res.state((tw["kind"], k == 0, k_iv > 1, bool(tw.get("mid_bin")), len(scenario["world"]["markets"]), scenario["world"]["prices"] is None))
        if pa != pb:
            i = next((i for i, (a, b) in enumerate(zip(pa, pb)) if a != b), min(len(pa), len(pb)))
            res.violate("c02.lookahead", _ev_site(pa, pb, i) + ":" + tw["kind"], k=k, j=tw["j"], first_diff=i, a=_get(pa, i), b=_get(pb, i))
            continue
        ra, rb = s1.actuator.account_status[: k + 1], s3.actuator.account_status[: k + 1]
        if canon(ra) != canon(rb):
            res.violate("c02.lookahead", "account_status:" + tw["kind"], k=k, j=tw["j"])
        if len(ra) > k:
            tmax = ra[k].timestamp
            aa = [canon(vars(a)) for a in s1.actuator.actions if a.timestamp <= tmax]
            ab = [canon(vars(a)) for a in s3.actuator.actions if a.timestamp <= tmax]
            if aa != ab:
                res.violate("c02.lookahead", "actions:" + tw["kind"], k=k, j=tw["j"])
    return res


def _get(ev, i):
    return ev[i][:5] if i < len(ev) else None


def _ev_site(a, b, i):
    e = a[i] if i < len(a) else (b[i] if i < len(b) else ["", "end"])
    return str(e[1]) + (":" + str(e[2]) if len(e) > 2 and isinstance(e[2], str) else "")


def abstract(scenario, res):
    return res.states


def nontrivial(state):
    return True


NO_TRUNCATE = True  # twins carry absolute minute positions


def shrink_candidates(scenario):
    tw = scenario.get("twins", [])
    for i in range(len(tw)):
        if len(tw) > 1:
            sc = copy.deepcopy(scenario)
            del sc["twins"][i]
            yield sc


RULE = (
    "one run = scenario S executed twice on the same frame objects of history H and once per divergence point on "
    "H'_k (k in {0, last-1, 2 random}); future = frozen / truncated / independent random continuation, starting on or "
    "inside a resample bin. distinct_nontrivial counts distinct (future kind, k==0, resampled, mid-bin, markets, "
    "auto-price) twin classes compared"
)
BUDGET = {"quick": {"runs": 1200, "wall": 90}, "thorough": {"runs": 60000, "wall": 1500}}
LEVEL = "exploration"
ASSUMPTIONS = [
    "the first raw row is never a hole: the real loader back-fills a leading hole from the future by design",
    "programs are scripted; symbolic arguments read current state only",
    "the strategy can always read the whole supplied frame through strategy.data; look-ahead is judged on what the framework computes and hands over (snapshots, account rows, actions, operation results)",
]
LEVEL_TEXT = (
    "seeded exploration with twin histories: exact equality of the event-log prefix (operation results, deep digests "
    "of every snapshot at hand-over time, notifications), account rows and actions for bars 0..k; SHA-256 of every "
    "supplied frame before/after each run; byte-identical re-run on the same frame objects. Sampling, not proof."
)
LEVEL_NOTE = "trusted: canonical deep hashing of frames (object cells included), the three continuation kinds cover a dependence on later rows only if the later values differ"
