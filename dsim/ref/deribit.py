"""Reference rules for the Deribit option family (DESIGN appendix A.5), written from the property texts C15/C16 and
the exchange's published fee schedule - a plain price-time matcher on exact rationals.  Nothing here imports demeter.

Book side = list of [price: Fraction, size: Fraction] in display order (best first).  All amounts are Fractions.
Where the property text leaves a boundary open (request below one contract step, a level exactly on a price cap,
an order exactly equal to a float-valued depth, cost exactly equal to cash) `trade_outcomes` returns *several*
acceptable outcomes instead of picking one, so an oracle built on it can never alarm on a tie.
"""
from decimal import Decimal
from fractions import Fraction
import math

CONFIG = {
    # contract step (10**step_exp) and fee step (10**fee_exp) per settlement currency
    "ETH": {"step_exp": 0, "fee_exp": -6},
    "BTC": {"step_exp": -1, "fee_exp": -8},
}
TRADE_FEE_RATE = Fraction(3, 10000)  # 0.03 % of the underlying per contract        (property C15)
DELIVERY_FEE_RATE = Fraction(15, 100000)  # 0.015 % per contract                     (property C16)
MAX_FEE_OF_VALUE = Fraction(1, 8)  # 12.5 % of the premium / option value            (C15, C16)
LIMIT_BAND = Fraction(1, 1000)  # a limit price addresses the level within 0.1 %    (DESIGN A.5)

# Book sizes are floats in the data (DESIGN C15 "Tol"): 1e-12 absolute on sizes.
SIZE_TOL = Fraction(1, 10**12)
# A level whose price is within this relative distance of a cap / band edge is "on the boundary": either side is fine.
EDGE_REL = Fraction(1, 10**9)


def F(x) -> Fraction:
    if isinstance(x, Fraction):
        return x
    if isinstance(x, float):
        return Fraction(Decimal(repr(x)))
    if isinstance(x, str) and x.startswith("D:"):
        x = x[2:]
    return Fraction(Decimal(x)) if not isinstance(x, int) else Fraction(x)


def exact(x) -> Fraction:
    """exact rational value of a binary float / Decimal / int (no repr shortening)"""
    if isinstance(x, float):
        return Fraction(x)
    return Fraction(x)


def unit(exp: int) -> Fraction:
    return Fraction(10) ** exp


def round_half_up(x: Fraction, exp: int) -> Fraction:
    """round to a multiple of 10**exp, ties away from zero (the exchange's rounding)"""
    u = unit(exp)
    q = x / u
    if q >= 0:
        return math.floor(q + Fraction(1, 2)) * u
    return -math.floor(-q + Fraction(1, 2)) * u


def contract_amount(request: Fraction, token: str) -> Fraction:
    return round_half_up(request, CONFIG[token]["step_exp"])


def trade_fee(q: Fraction, premium: Fraction, token: str) -> Fraction:
    return round_half_up(min(TRADE_FEE_RATE * q, MAX_FEE_OF_VALUE * premium), CONFIG[token]["fee_exp"])


def delivery_fee(q: Fraction, option_value: Fraction, token: str) -> Fraction:
    return round_half_up(min(DELIVERY_FEE_RATE * q, MAX_FEE_OF_VALUE * option_value), CONFIG[token]["fee_exp"])


def mark_rounded(mark: Fraction, token: str) -> Fraction:
    return round_half_up(mark, CONFIG[token]["fee_exp"])


def intrinsic(q: Fraction, kind: str, strike: Fraction, underlying: Fraction) -> Fraction:
    """unrounded payoff in the settlement currency: contracts x max(+-(S-K),0) / S"""
    diff = (underlying - strike) if kind == "CALL" else (strike - underlying)
    if diff <= 0 or underlying <= 0:
        return Fraction(0)
    return q * diff / underlying


class Reject:
    def __init__(self, cause):
        self.cause = cause

    accepted = False

    def __repr__(self):
        return f"Reject({self.cause})"


class Fill:
    """fills: list of (level index in the *full* side, price, quantity) best-first; premium = sum p*q"""

    accepted = True

    def __init__(self, q, fills, note=""):
        self.q = q
        self.fills = fills
        self.premium = sum((p * f for _, p, f in fills), Fraction(0))
        self.note = note

    def __repr__(self):
        return f"Fill(q={self.q}, {[(i, str(p), str(f)) for i, p, f in self.fills]})"


def _cap_variants(side, is_buy, cap_bound):
    """-> list of admissible index sets.  Buy: price < cap; sell: price > cap; a level on the boundary may be either."""
    if cap_bound is None:
        return [list(range(len(side)))]
    sure, edge = [], []
    for i, (p, _s) in enumerate(side):
        if abs(p - cap_bound) <= EDGE_REL * abs(cap_bound):
            edge.append(i)
        elif (p < cap_bound) if is_buy else (p > cap_bound):
            sure.append(i)
    out = [sure]
    if edge:
        out.append(sorted(sure + edge))
    return out


def trade_outcomes(side, is_buy, request, token, mode, limit=None, cap_bound=None, inexact=False):
    """All outcomes the rules allow for one order against one displayed book side (holding / cash are checked by
    the caller).  mode: "market" | "limit".  Returns list of Reject / Fill.
    inexact: the side was already reduced by an earlier fill in this status; the displayed sizes are then results of
    binary float subtraction (e.g. 220.763 - 75.763 displays 144.99999999999997), so exhausting a level exactly is a
    tie even when the exact remainder is a whole number."""
    step = unit(CONFIG[token]["step_exp"])
    out = []
    if request < step:
        # A.5: q = round_half_up(request, step) >= step.  The text does not say whether a sub-step request is
        # refused or bumped to one contract: both are admissible.
        out.append(Reject("min_amount"))
        q = max(step, contract_amount(request, token))
    else:
        q = contract_amount(request, token)
    seen = set()
    for idxs in _cap_variants(side, is_buy, cap_bound):
        if mode == "limit":
            cands, edge = [], False
            for i in idxs:
                p = side[i][0]
                d = abs(p - limit)
                band = LIMIT_BAND * limit
                if abs(d - band) <= EDGE_REL * limit:
                    edge = True
                elif d < band:
                    cands.append(i)
            exact = [i for i in cands if side[i][0] == limit]
            if len(exact) == 1:
                cands, edge = exact, False  # the level that carries the limit price IS "that level", however close its neighbours
            if edge or len(cands) > 1:
                # no level carries the price itself and several lie within the band: which one "that level" is, is not
                # decided by the text: anything goes
                return [Reject("ambiguous"), Fill(q, [], "ambiguous")]
            if not cands:
                res = [Reject("no_level_at_price")]
            else:
                i = cands[0]
                p, s = side[i]
                if q > s + SIZE_TOL:
                    res = [Reject("beyond_depth")]
                elif q > s or ((inexact or s != int(s)) and s - q <= SIZE_TOL):
                    # a fractional displayed size is a binary float: exhausting it exactly is a tie
                    res = [Reject("beyond_depth"), Fill(q, [(i, p, q)])]
                else:
                    res = [Fill(q, [(i, p, q)])]
        else:
            depth = sum((side[i][1] for i in idxs), Fraction(0))
            fractional = inexact or any(side[i][1] != int(side[i][1]) for i in idxs)
            fills, left = [], q
            for i in idxs:
                p, s = side[i]
                if s <= 0:
                    continue
                f = min(s, left)
                fills.append((i, p, f))
                left -= f
                if left == 0:
                    break
            if q > depth + SIZE_TOL * max(1, len(idxs)):
                res = [Reject("beyond_depth")]
            elif q > depth or (q == depth and fractional) or (fractional and depth - q <= SIZE_TOL * len(idxs)):
                res = [Reject("beyond_depth")]
                if left <= SIZE_TOL * max(1, len(idxs)):
                    res.append(Fill(q, fills))
            else:
                res = [Fill(q, fills)]
        for r in res:
            key = ("R", r.cause) if not r.accepted else ("F", tuple(r.fills), r.note)
            if key not in seen:
                seen.add(key)
                out.append(r)
    return out


def apply_fill(side, fill):
    """the displayed side after the fill (sizes reduced in place on a copy)"""
    new = [[p, s] for p, s in side]
    for i, _p, f in fill.fills:
        new[i][1] -= f
    return new
