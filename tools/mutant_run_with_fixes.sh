#!/bin/bash
# usage: tools/mutant_run_with_fixes.sh <patch-file> <PROP-ID> [--tests] [extra dsim.check args]
# Like tools/mutant_run.sh, but first applies every /verif/proposed_fixes/<PROP-ID>-*.patch that still applies to the
# scratch copy (proposed, not yet committed fixes).  Needed while a property's check fires on the unchanged tree for a
# genuine defect: without the fixes every mutant would be "caught" by the unrelated genuine violation.
set -u
PATCH=$(realpath "$1"); PID=$2; shift 2
TESTS=0; if [ "${1:-}" = "--tests" ]; then TESTS=1; shift; fi
S=$(mktemp -d /tmp/dsim-mutant-XXXXXX)
if [ -z "${KEEP:-}" ]; then trap 'rm -rf "$S"' EXIT; else echo "KEEPING $S"; fi
rsync -a --exclude .git --exclude __pycache__ /repo/ "$S/repo/"
cd "$S/repo"
for f in /verif/proposed_fixes/$PID-*.patch; do
  [ -f "$f" ] || continue
  if patch -p1 -s --dry-run < "$f" >/dev/null 2>&1; then patch -p1 -s < "$f" && echo "FIX-APPLIED $(basename "$f")"; else echo "FIX-SKIPPED $(basename "$f") (already in /repo or does not apply)"; fi
done
if [ "$(basename "$PATCH")" != "NONE" ]; then
  patch -p1 -s < "$PATCH" || { echo "PATCH-FAILED"; exit 3; }
fi
if [ $TESTS = 1 ]; then
  /venv/bin/python -m pytest -q -p no:cacheprovider --timeout=900 --continue-on-collection-errors 2>&1 | tail -1
fi
mkdir -p "$S/replays"
cd /verif && DSIM_REPO="$S/repo" DSIM_REPLAY_DIR="$S/replays" timeout 1200 /venv/bin/python -m dsim.check "$PID" --no-evidence "$@" 2>&1 | grep -v "conda" | grep -E "VIOLATION|HARNESS|KNOWN|done" | cut -c1-400
echo "MUTANT-EXIT=${PIPESTATUS[0]}"
