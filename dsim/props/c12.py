"""C12 - Aave liquidation: only below HF 1, close factor, exact bonus at the collateral's own index, wallet untouched.

Real: AaveV3Market.update -> _liquidate -> _do_liquidate inside Actuator.run.
Oracle: the LiquidationActions recorded during one update() are replayed, step by step, on a reference copy of the
position book read just before update() (exact Fractions, DESIGN A.3); every step's fields, the chain's end state, the
wallet and the termination condition are checked.
"""
import copy
from decimal import Decimal
from fractions import Fraction

from ..sim import Sim, Oracle
from ..worlds import aave as A
from ..ref import aave as RA
from ..ref.aave import F, fstr, BAND
from .. import rng as R

ID = "C12"
TOL_AMOUNT = Fraction(1, 10**18)  # token amounts (property family tolerance, DESIGN C12)
TOL_FIELD = Fraction(1, 10**25)  # relative, health-factor fields of the action (35-digit Decimal quotients)
CLOSE_HF = Fraction(95, 100)
PHASES = ["initialize", "before_bar", "trigger", "on_bar", "after_bar", "notify"]
HF_CLASSES = ("safe", "half", "full", "deep", "edge1", "edge95", "half", "full", "deep", "abyss")


# --------------------------------------------------------------------------------------------------- generation
def _gen_exactly_one(seed: int) -> dict:
    """A position whose health factor is EXACTLY 1 at the end of a bar, built from numbers for which every product the
    definition needs is an exact decimal (indices 1, amounts and prices with two decimals, thresholds in basis points, a debt
    of 1000 units priced at the weighted collateral / 1000): 'liquidated if and only if below 1' has no tolerance there."""
    rx = R.sub(seed, "exactly_one")
    nb = rx.choice([4, 5, 6])
    world, mw = A.base_world(rx, nb, ntok=3, all_enabled=True, index_style="flat", price_style=0.0)
    c1, c2, d = mw["tokens"]
    n = int(world["n"])
    for col in ("liquidity_index", "variable_borrow_index"):
        for t in mw["tokens"]:
            mw[col][t] = ["1"] * n
    from decimal import localcontext

    # among the candidate numbers prefer a set for which an algebraically equal way of writing the health factor (total
    # collateral x weighted threshold / debt) is NOT exact at 35 digits: the definition itself stays exact for all of them
    for _try in range(600):
        lt1, lt2 = rx.sample([8250, 8000, 7500, 7300, 6500, 8300], 2)
        a1, a2 = Decimal(rx.randint(100, 3000)) / 100, Decimal(rx.randint(100, 90000)) / 100
        p1, p2 = Decimal(rx.randint(5000, 300000)) / 100, Decimal(rx.randint(50, 5000)) / 100
        S = a1 * p1 * Decimal(lt1) / 10000 + a2 * p2 * Decimal(lt2) / 10000
        with localcontext() as ctx:
            ctx.prec = 35
            V = a1 * p1 + a2 * p2
            if V * (S / V) / S != 1 or (S / V) * V != S:
                break
    mw["risk"][c1].update(lt=lt1, ltv=min(lt1 - 500, 7000))
    mw["risk"][c2].update(lt=lt2, ltv=min(lt2 - 500, 7000))
    D_ = Decimal(1000)
    pd1 = S / D_  # the debt token's price from the shock bar on: health factor exactly 1
    pd0 = (pd1 * Decimal("0.5")).quantize(Decimal("0.01")) or Decimal("0.01")
    bs = rx.randint(1, nb - 1)
    world["prices"][c1] = [format(p1, "f")] * n
    world["prices"][c2] = [format(p2, "f")] * n
    world["prices"][d] = [format(pd0, "f")] * bs + [format(pd1, "f")] * (n - bs)
    world["assets"] = {c1: format(a1, "f"), c2: format(a2, "f"), d: "0"}
    program = [
        {"bar": 0, "phase": "on_bar", "op": "aave.supply", "m": "aave0", "a": {"token": c1, "amount": format(a1, "f"), "collateral": True}},
        {"bar": 0, "phase": "on_bar", "op": "aave.supply", "m": "aave0", "a": {"token": c2, "amount": format(a2, "f"), "collateral": True}},
        {"bar": 0, "phase": "on_bar", "op": "aave.borrow", "m": "aave0", "a": {"token": d, "amount": "1000"}},
    ]
    faults = [{"kind": "health_factor_exactly_1", "bar": bs}]
    return {"property": ID, "seed": seed, "world": world, "program": program, "faults": faults, "opts": {"exactly_one": bs}}


def generate(seed: int, tier: str = "quick") -> dict:
    if R.sub(seed, "exactly_one_p").random() < 0.05:
        return _gen_exactly_one(seed)
    rw, rp, rf = R.sub(seed, "world"), R.sub(seed, "program"), R.sub(seed, "faults")
    nb = rw.choice([5, 6, 8, 12] if tier == "quick" else [6, 8, 12, 20])
    world, mw = A.base_world(rw, nb, ntok=rw.choice([2, 3, 3, 4]), all_enabled=True, min_gap=0.05,
                             index_style=rw.choice(["flat", "slow", "fast", None]), price_style=rw.choice([0.0, 0.0, 0.001]))
    toks = mw["tokens"]
    for t in toks:
        world["assets"][t] = rw.choice(["0", "1000000", "1000000"])
    ref = RA.AaveRef(world, mw)
    ncoll = rp.choice([1, 1, 2, 2, 3])
    ndebt = rp.choice([1, 1, 2, 2, 3])
    colls = rp.sample(toks, min(ncoll, len(toks)))
    rest = [t for t in toks if t not in colls]
    overlap = rp.random() < 0.25
    pool = toks if overlap or not rest else rest
    debts = rp.sample(pool, min(ndebt, len(pool)))
    program, faults = [], []
    st = RA.State()
    unit = {t: Fraction(1000) / ref.P(t, 0) for t in toks}
    # a reserve that cannot be supplied as collateral (usageAsCollateralEnabled = False) but still carries a liquidation
    # threshold and a bonus - several reserves of the shipped risk files are like that; the public pair
    # supply(..., collateral=False) + change_collateral(token, True) makes it collateral all the same
    odd = R.sub(seed, "disabled_collateral").choice(colls) if R.sub(seed, "disabled_collateral_p").random() < 0.15 else None
    for t in colls:
        amt = Decimal(A.dstr(float(unit[t]) * rp.uniform(0.5, 10), rp.choice([2, 6, 18])))
        world["assets"][t] = str(Decimal(world["assets"][t]) + amt)
        b0 = rp.choice([-1, 0])
        if t == odd:
            mw["risk"][t]["collateral"] = False
            program.append({"bar": b0, "phase": "on_bar", "op": "aave.supply", "m": "aave0", "a": {"token": t, "amount": str(amt), "collateral": False}})
            program.append({"bar": b0, "phase": "on_bar", "op": "aave.change_collateral", "m": "aave0", "a": {"token": t, "collateral": True}})
            faults.append({"kind": "collateral_in_a_reserve_not_enabled_as_collateral"})
        else:
            program.append({"bar": b0, "phase": "on_bar", "op": "aave.supply", "m": "aave0", "a": {"token": t, "amount": str(amt), "collateral": True}})
        st.sup[t] = [F(amt) / ref.Is(t, 0), True]
    if rest and R.sub(seed, "dust").random() < 0.2:
        # a dust collateral next to the real ones: once those are seized the health factor is tiny but positive, collateral
        # is left and debts may still be unvisited - the liquidation must go on
        t = R.sub(seed, "dust_token").choice(rest)
        amt = Decimal(A.dstr(float(unit[t]) * 10.0 ** -R.sub(seed, "dust_size").choice([3, 5, 7]), 18))
        if amt > 0:
            world["assets"][t] = str(Decimal(world["assets"][t]) + amt)
            program.append({"bar": 0, "phase": "on_bar", "op": "aave.supply", "m": "aave0", "a": {"token": t, "amount": str(amt), "collateral": True}})
            st.sup[t] = [F(amt) / ref.Is(t, 0), True]
            rest = [x for x in rest if x != t]
    if rp.random() < 0.3 and rest:  # a non-collateral supply that must never be seized
        t = rp.choice(rest)
        amt = Decimal(A.dstr(float(unit[t]) * rp.uniform(0.5, 10), 6))
        world["assets"][t] = str(Decimal(world["assets"][t]) + amt)
        program.append({"bar": 0, "phase": "on_bar", "op": "aave.supply", "m": "aave0", "a": {"token": t, "amount": str(amt), "collateral": False}})
        st.sup[t] = [F(amt) / ref.Is(t, 0), False]
    for p in program:
        if p["bar"] == -1:
            p["phase"] = "initialize"
    use = rp.choice([0.5, 0.7, 0.85, 0.95])
    for j, t in enumerate(debts):
        lim = ref.max_borrow(st, t, 0)
        if lim is None:
            continue
        share = use if j == len(debts) - 1 else rp.uniform(0.2, 0.6)
        amt = RA.to_dec(lim * F(A.dstr(share, 4))).quantize(Decimal(1).scaleb(-18))
        if amt <= 0:
            continue
        program.append({"bar": 0, "phase": "on_bar", "op": "aave.borrow", "m": "aave0", "a": {"token": t, "amount": str(amt)}})
        st.debt[t] = st.debt.get(t, Fraction(0)) + F(amt) / ref.Ib(t, 0)
    # hostile history: shocks sized from the exact pre-shock health factor
    nshock = rf.choice([1, 1, 1, 2])
    bars = sorted(rf.sample(range(1, nb), min(nshock, nb - 1)))
    for bs in bars:
        ref = RA.AaveRef(world, mw)  # sees earlier shocks
        cls = rf.choice(HF_CLASSES)
        target = {
            "safe": rf.uniform(1.02, 1.3), "half": rf.uniform(0.955, 0.995), "full": rf.uniform(0.7, 0.945),
            "deep": rf.uniform(0.15, 0.6), "abyss": 10.0 ** -rf.choice([4, 6.3, 7, 9]), "edge1": 1 + rf.choice([-1, 1]) * 10.0 ** -rf.choice([3, 6]),
            "edge95": 0.95 + rf.choice([-1, 1]) * 10.0 ** -rf.choice([3, 6]),
        }[cls]
        T = F(A.dstr(target, 9))
        D = ref.total_debt(st, bs)
        if D == 0:
            break
        only_c = [t for t in st.sup if st.sup[t][1] and t not in st.debt]
        Aw = sum((ref.coll_values(st, bs)[t] * ref.risk[t]["lt"] for t in only_c), Fraction(0))
        Bw = ref.lt_sum(st, bs) - Aw
        raw = ref.rows[bs][1]
        kind = rf.choice(["price_shock", "price_shock", "price_shock", "index_jump"])
        if kind == "price_shock" and Aw > 0 and T * D - Bw > 0:
            mult = (T * D - Bw) / Aw
            for t in only_c:
                s = world["prices"][t]
                for i in range(raw, len(s)):
                    s[i] = A.dstr(RA.to_dec(F(s[i]) * mult), 12)
        else:  # debt side: borrow index of debt-only tokens jumps (or their price rises)
            only_d = [t for t in st.debt if not (t in st.sup and st.sup[t][1])]
            Dv = sum((ref.debt_values(st, bs)[t] for t in only_d), Fraction(0))
            if Dv == 0:
                continue
            need = ref.lt_sum(st, bs) / T  # total debt value wanted
            mult = (need - (D - Dv)) / Dv
            if mult <= 0:
                continue
            if kind == "index_jump" and 1 <= mult < 1000:
                for t in only_d:
                    s = mw["variable_borrow_index"][t]
                    for i in range(raw, len(s)):
                        s[i] = format(RA.to_dec(F(s[i]) * mult).quantize(Decimal(1).scaleb(-27)), "f")
            else:
                kind = "price_shock"
                for t in only_d:
                    s = world["prices"][t]
                    for i in range(raw, len(s)):
                        s[i] = A.dstr(RA.to_dec(F(s[i]) * mult), 12)
        faults.append({"kind": kind, "bar": bs, "class": cls, "target_hf": A.dstr(target, 9)})
        break_after = rf.random() < 0.5
        if break_after:
            break
    # a few unrelated operations around / after the shock (same-bar write, reads, rescue attempts)
    for _ in range(rp.choice([0, 0, 1, 2, 3])):
        b = rp.randint(1, nb - 1)
        ph = rp.choice([1, 3, 4])
        r = rp.random()
        if r < 0.3:
            t = rp.choice(toks)
            view = rp.choice(["health_factor", "get_market_balance", "supplies", "get_max_withdraw_amount", "get_max_borrow_amount", "max_ltv", "liquidation_threshold"])
            # limit queries with no write after them in the bar: what they work on must not be the position itself
            program.append({"bar": b, "phase": PHASES[ph], "op": "aave.read", "m": "aave0", "a": {"view": view, "token": {"supplied": rp.randint(0, 3)} if view == "get_max_withdraw_amount" else t}})
        elif r < 0.6:
            t = rp.choice(colls)
            amt = Decimal(A.dstr(float(unit[t]) * rp.uniform(0.01, 0.3), 6))
            world["assets"][t] = str(Decimal(world["assets"][t]) + amt)
            program.append({"bar": b, "phase": PHASES[ph], "op": "aave.supply", "m": "aave0", "a": {"token": t, "amount": str(amt), "collateral": True}})
        elif r < 0.8:
            program.append({"bar": b, "phase": PHASES[ph], "op": "aave.repay", "m": "aave0", "a": {"token": {"borrowed": rp.randint(0, 2)}, "amount": {"f": "debt", "x": rp.choice(["0.05", "0.2"])}}})
        else:
            program.append({"bar": b, "phase": PHASES[ph], "op": "aave.withdraw", "m": "aave0", "a": {"token": {"supplied": rp.randint(0, 3)}, "amount": {"f": "ref_max_withdraw", "x": "0.5"}}})
    # refused risk-increasing requests (withdrawal / borrow / collateral-flag removal beyond the limit) in a bar of their
    # own: a call that was refused must not tip the end-of-bar decision "liquidated iff health factor < 1"
    for _ in range(rf.choice([0, 1, 1, 2])):
        b = rf.randint(1, nb - 1)
        ph = rf.choice([1, 3, 3, 4])
        r = rf.random()
        if r < 0.6:
            o = {"op": "aave.withdraw", "a": {"token": {"supplied": rf.randint(0, 3)}, "amount": {"f": "ref_max_withdraw", "x": rf.choice(["1.02", "1.5", "3"]), "q": False}}}
        elif r < 0.85:
            o = {"op": "aave.borrow", "a": {"token": rf.choice(toks), "amount": {"f": "ref_max_borrow", "x": rf.choice(["1.05", "2", "10"]), "q": False}}}
        else:
            o = {"op": "aave.change_collateral", "a": {"token": {"supplied": rf.randint(0, 3)}, "collateral": False}}
        o.update({"bar": b, "phase": PHASES[ph], "m": "aave0"})
        program.append(o)
        faults.append({"kind": "reject:" + o["op"].split(".")[1] + ":beyond_limit", "bar": b})
    program = [p for _, p in sorted(enumerate(program), key=lambda e: (e[1]["bar"], PHASES.index(e[1]["phase"]), e[0]))]
    by = A.add_bystander(R.sub(seed, "bystander"), world)
    if by is not None:
        faults.append({"kind": "second_market_of_the_same_kind_registered_first"})
        rt = R.sub(seed, "same_risk_file")
        if rt.random() < 0.4:
            # both pools are built from the SAME risk-parameter file, then the owner edits the other pool's table in place
            # (bonus and threshold of one token): this pool's liquidations follow this pool's table
            import copy as _copy

            mw0 = A.market_of(world)
            by["risk"] = _copy.deepcopy(mw0["risk"])
            t = rt.choice(sorted(by["tokens"]))
            r = by["risk"][t]
            program.insert(0, {"bar": -2, "phase": "pre_run", "op": "aave.edit_risk", "m": by["name"],
                               "a": {"token": t, "ltv": int(r["ltv"]), "lt": max(int(r["ltv"]) + 100 if r["lt"] else 0, int(r["lt"] * 0.9)), "bonus": int(r["bonus"]) + rt.choice([300, 700, 1200])}})
            faults.append({"kind": "two_pools_from_one_risk_file_the_other_one_edited_in_place"})
    return {"property": ID, "seed": seed, "world": world, "program": program, "faults": faults}


# --------------------------------------------------------------------------------------------------- oracle
class LiquidationOracle(Oracle):
    def start(self, sim):
        self.m = sim.markets["aave0"]
        self.ref = RA.ref_for(sim, self.m)
        self.pre = None

    def _wallet(self, sim):
        return {k.name: F(v.balance) for k, v in sim.broker.assets.items()}

    def phase(self, sim, bar, phase, pos):
        if phase == "on_bar" and pos == "end":
            self.pre = (bar, RA.read_state(self.m), self._wallet(sim), len(sim.actuator.actions))
        elif phase == "after_bar" and pos == "begin" and self.pre is not None and self.pre[0] == bar:
            self._replay(sim, *self.pre)
            self.pre = None

    def _hf_class(self, hf):
        if hf is None:
            return "inf"
        if hf >= 1:
            return "safe"
        if hf > CLOSE_HF:
            return "half"
        return "full" if hf > Fraction(6, 10) else "deep"

    def _replay(self, sim, bar, s0, w0, n0):
        ref, m = self.ref, self.m
        acts = [a for a in sim.actuator.actions[n0:] if type(a).__name__ == "LiquidationAction"]
        others = [a for a in sim.actuator.actions[n0:] if type(a).__name__ != "LiquidationAction"]
        st = s0.copy()
        hf0 = ref.hf(st, bar)
        has_c, has_d = ref.total_coll(st, bar) > 0, ref.total_debt(st, bar) > 0
        cls0 = self._hf_class(hf0)

        def bad(site, **d):
            sim.violate("c12.liquidation", site, bar=bar, hf_before_update=fstr(hf0, 25), n_steps=len(acts), **d)

        if others:
            return bad("update:unexpected_action", kinds=[type(a).__name__ for a in others])
        # liquidated iff HF < 1 (band around 1: either)
        if hf0 is not None and has_c and has_d and hf0 < 1 - BAND and not acts:
            if all(ref.risk[t]["lt"] > 0 for t, v in st.sup.items() if v[1]):
                return bad("update:not_liquidated_below_1")
        if acts and (hf0 is None or hf0 >= 1 + BAND):
            return bad("update:liquidated_at_or_above_1")
        if hf0 == 1 and sim.scenario.get("opts", {}).get("exactly_one") is not None:
            sim.count("probe:health_factor_exactly_1")
            if acts:  # every product in the definition is an exact decimal in this world: no rounding to hide behind
                return bad("update:liquidated_at_exactly_1")
        if has_d:
            sim.count(f"probe:hf_class_before_update:{cls0}")
        visited = []
        capped_any, cfs = False, set()
        for k, a in enumerate(acts):
            c, d = a.collateral_token.upper(), a.debt_token.upper()
            site = "step"
            if d in visited:
                return bad(f"{site}:debt_token_twice", token=d)
            visited.append(d)
            if c not in st.sup or not st.sup[c][1]:
                return bad(f"{site}:collateral_not_held_as_collateral", token=c)
            if d not in st.debt:
                return bad(f"{site}:debt_not_held", token=d)
            hf = ref.hf(st, bar)
            if not RA.close(F(a.health_factor_before), hf, TOL_FIELD):
                return bad(f"{site}:health_factor_before", got=str(a.health_factor_before), want=fstr(hf))
            if hf >= 1 + BAND:
                return bad(f"{site}:step_at_hf_above_1", hf=fstr(hf))
            Pd, Pc = ref.P(d, bar), ref.P(c, bar)
            bonus = ref.risk[c]["bonus"]
            debt_d, bal_c = ref.debt_amount(st, d, bar), ref.sup_amount(st, c, bar)
            r, s = F(a.variable_delt_liquidated), F(a.collateral_used)
            if r < 0 or s < 0:
                return bad(f"{site}:negative_amount", repaid=fstr(r), seized=fstr(s))
            # close factor: 50 % above HF 0.95, else 100 % (band around 0.95: the laxer bound)
            cf = Fraction(1, 2) if hf > CLOSE_HF * (1 + BAND) else Fraction(1)
            cfs.add("50" if hf > CLOSE_HF else "100")
            if r > cf * debt_d + TOL_AMOUNT:
                return bad(f"{site}:repaid_exceeds_close_factor", repaid=fstr(r), debt=fstr(debt_d), close_factor=str(cf), hf=fstr(hf, 25))
            want_s = r * Pd / Pc * (1 + bonus)
            if abs(s - want_s) <= TOL_AMOUNT and s <= bal_c + TOL_AMOUNT:
                pass
            elif abs(s - bal_c) <= TOL_AMOUNT and abs(r - bal_c * Pc / (Pd * (1 + bonus))) <= TOL_AMOUNT:
                capped_any = True
            else:
                return bad(f"{site}:seized_amount", seized=fstr(s), repaid=fstr(r), want_seized=fstr(want_s), collateral_balance=fstr(bal_c),
                           collateral=c, debt=d, bonus=str(bonus))
            nv_before = ref.net_value(st, bar)
            ref.apply_liquidation(st, c, d, min(s, bal_c), min(r, debt_d), bar)
            if ref.sup_amount(st, c, bar) <= TOL_AMOUNT:
                del st.sup[c]
            if ref.debt_amount(st, d, bar) <= TOL_AMOUNT:
                del st.debt[d]
            # a step lowers net value by exactly bonus x repaid value
            if abs((nv_before - ref.net_value(st, bar)) - bonus * r * Pd) > TOL_AMOUNT * (Pd + Pc + 1) * 4:
                return bad(f"{site}:net_value_drop", got=fstr(nv_before - ref.net_value(st, bar)), want=fstr(bonus * r * Pd))
            # the recorded action matches the state change
            if abs(F(a.collateral_after) - ref.sup_amount(st, c, bar)) > TOL_AMOUNT * 2:
                return bad(f"{site}:collateral_after", got=str(a.collateral_after), want=fstr(ref.sup_amount(st, c, bar)), collateral=c, debt=d,
                           index_collateral=fstr(ref.Is(c, bar)), index_debt_token=fstr(ref.Is(d, bar)))
            if abs(F(a.variable_debt_after) - ref.debt_amount(st, d, bar)) > TOL_AMOUNT * 2:
                return bad(f"{site}:variable_debt_after", got=str(a.variable_debt_after), want=fstr(ref.debt_amount(st, d, bar)))
            hfa = ref.hf(st, bar)
            ga = a.health_factor_after
            if hfa is None:
                if ga != Decimal("inf"):
                    return bad(f"{site}:health_factor_after", got=str(ga), want="inf")
            elif not ga.is_finite() or not RA.close(F(ga), hfa, TOL_FIELD, TOL_FIELD):
                return bad(f"{site}:health_factor_after", got=str(ga), want=fstr(hfa))
        # the chain applied to S0 equals the state after update(), token by token
        s1 = RA.read_state(m)
        for kind, want, got, amt in (("supply", st.sup, s1.sup, ref.sup_amount), ("debt", st.debt, s1.debt, ref.debt_amount)):
            for t in sorted(set(want) | set(got)):
                a_want = amt(st, t, bar)
                a_got = amt(s1, t, bar)
                if abs(a_want - a_got) > TOL_AMOUNT * 2:
                    return bad(f"end:{kind}_differs_from_recorded_steps", token=t, got=fstr(a_got), want=fstr(a_want))
        for t in s1.sup:
            if t in s0.sup and s0.sup[t][1] != s1.sup[t][1]:
                return bad("end:collateral_flag_changed", token=t)
        w1 = self._wallet(sim)
        for t in sorted(set(w0) | set(w1)):
            if w0.get(t, 0) != w1.get(t, 0):
                return bad("end:wallet_changed", token=t, before=fstr(w0.get(t, 0)), after=fstr(w1.get(t, 0)))
        hf1 = ref.hf(s1, bar)
        end = "no_liquidation"
        if acts:
            if hf1 is None or hf1 >= 1 - BAND:
                end = "hf_restored"
            elif ref.total_coll(s1, bar) == 0:
                end = "no_collateral_left"
            elif set(s0.debt) <= set(visited):
                end = "every_debt_visited"
            else:
                return bad("end:stopped_early", hf_after=fstr(hf1, 25), visited=visited, debts=sorted(s0.debt))
            sim.count(f"probe:end:{end}")
            sim.count("probe:multi_step" if len(acts) > 1 else "probe:single_step")
            for x in cfs:
                sim.count(f"probe:close_factor_{x}")
            if capped_any:
                sim.count("probe:collateral_capped_step")
            sim.count("fault:liquidation")
        sim.state((cls0, min(len(acts), 3), capped_any, tuple(sorted(cfs)), min(len([1 for v in s0.sup.values() if v[1]]), 3), min(len(s0.debt), 3), end))

    def finish(self, sim):
        if sim.crash is not None:
            where = "/".join(getattr(sim, "crash_where", [])[-1:])
            if self.pre is not None and ("_liquidate" in where):
                bar, s0, w0, n0 = self.pre
                acts = [a for a in sim.actuator.actions[n0:] if type(a).__name__ == "LiquidationAction"]
                visited = sorted(a.debt_token.upper() for a in acts)
                cause = "all_debts_visited" if set(s0.debt) <= set(visited) else "other"
                sim.violate("c12.crash", f"update:{type(sim.crash).__name__}@{where}:{cause}", bar=bar, msg=str(sim.crash)[:200],
                            hf_before_update=fstr(self.ref.hf(s0, bar), 25), visited=visited, debts=sorted(s0.debt))
            else:
                sim.violate("c12.crash", f"{type(sim.crash).__name__}@{where}", msg=str(sim.crash)[:200])


def execute(scenario) -> Sim:
    return Sim(scenario, LiquidationOracle()).run()


def abstract(scenario, sim):
    return sim.states


def nontrivial(state) -> bool:
    return state[1] >= 1


def shrink_candidates(scenario):
    mw = A.market_of(scenario["world"])
    for col in ("liquidity_rate", "variable_borrow_rate", "stable_borrow_rate"):
        for t, series in mw.get(col, {}).items():
            if any(x != "0" for x in series):
                c = copy.deepcopy(scenario)
                for tt in A.market_of(c["world"])[col]:
                    A.market_of(c["world"])[col][tt] = ["0"] * len(series)
                yield c
                break
    for t, bal in scenario["world"]["assets"].items():
        if Decimal(bal) > 10**5:
            c = copy.deepcopy(scenario)
            c["world"]["assets"][t] = str(Decimal(bal) - 10**6)
            yield c


RULE = (
    "one case = one Market.update() at the end of a bar of a seeded run (with or without liquidation steps) replayed on the "
    "reference book; distinct_nontrivial counts distinct (HF class before update, number of steps capped at 3, any "
    "collateral-capped step, close factors used, collaterals, debts, end reason) tuples with at least one liquidation step"
)
BUDGET = {"quick": {"runs": 3000, "wall": 60}, "thorough": {"runs": 120000, "wall": 1200}}
LEVEL = "exploration"
ASSUMPTIONS = [
    "HF within a relative 1e-9 band of 1 may or may not be liquidated; within the band around 0.95 either close factor is accepted",
    "'at most the close factor': a step repaying less than close factor x debt is legal (the code compares a USD value with a token amount there; with non-unit debt prices it repays less, which the property allows)",
    "which (collateral, debt) pair is chosen at each step is not judged, only that the collateral is held as collateral, the debt is held and no debt token is used twice",
    "'liquidated iff HF < 1' is demanded only when every collateral has a non-zero liquidation threshold (generated risk tables always do)",
    "amount tolerance 1e-18 per token (2e-18 where two rounded quantities are compared), health-factor fields 1e-25 relative",
]
LEVEL_TEXT = (
    "seeded exploration: portfolios with 1-3 collaterals and 1-3 debts (token overlap allowed), liquidity and borrow "
    "indices distinct per token (>= 5 % apart), non-unit prices on both sides, wallets holding the same tokens; price "
    "shocks / borrow-index jumps sized from the exact pre-shock health factor into {safe, (0.95,1), <=0.95, deep, 1+-eps, "
    "0.95+-eps}; every update() is replayed step by step from the recorded LiquidationActions. Sampling, not proof."
)
LEVEL_NOTE = (
    "trusted: the reference reading of the Aave v3 liquidation rules (DESIGN appendix A.3), Python Fraction/Decimal, "
    "generator reach (see reach_probes); histories are synthetic frames in the loader's output format"
)
